"""Self-test variant catalogue: one-instance edits of the analysed tree (DESIGN §7, Appendix B).

Each variant is a textual edit (file, old, new) of the current /repo; `fire` lists the properties whose check must
report a VIOLATION (exit 1) on the edited tree, `silent` the properties whose check must stay at exit 0 (behaviour
preserving edits, or edits irrelevant to that property). A variant whose `old` text is no longer found is reported
as stale (the catalogue must follow the repository), never as a pass.
"""

WL = "openskill/models/weng_lin/"
PL, BTF, BTP, TMF, TMP = (WL + f for f in ("plackett_luce.py", "bradley_terry_full.py", "bradley_terry_part.py", "thurstone_mosteller_full.py", "thurstone_mosteller_part.py"))
COMMON = WL + "common.py"
MCOMMON = "openskill/models/common.py"

PAIR_BLOCK_DRAW = """        draw_probability = 1 / total_player_count
        draw_margin = (
            math.sqrt(total_player_count)
            * self.beta
            * phi_major_inverse((1 + draw_probability) / 2)
        )

        pairwise_probabilities = []
        for pair_a, pair_b in itertools.permutations(teams, 2):
            pair_a_subset = self._calculate_team_ratings([pair_a])
            pair_b_subset = self._calculate_team_ratings([pair_b])
            mu_a = pair_a_subset[0].mu
            sigma_a = pair_a_subset[0].sigma_squared
            mu_b = pair_b_subset[0].mu
            sigma_b = pair_b_subset[0].sigma_squared
            pairwise_probabilities.append(
                phi_major(
                    (draw_margin - mu_a + mu_b)"""

VARIANTS = [
    # ------------------------------------------------------------------ C13
    dict(id="c13-validate-slice", fire=["C13"], file=PL, old="                for rank in ranks:", new="                for rank in ranks[1:]:"),
    dict(id="c13-duck-typing", fire=["C13"], file=BTF, old="                        if isinstance(player, BradleyTerryFullRating):", new="                        if hasattr(player, 'mu'):"),
    dict(id="c13-exception-class", fire=["C13"], file=TMP,
         old="                    raise ValueError(\n                        f\"Argument 'scores' must have", new="                    raise IndexError(\n                        f\"Argument 'scores' must have"),
    # ------------------------------------------------------------------ C14
    dict(id="c14-class-counter", fire=["C14"], file=BTF, old="        n = len(teams)\n        denominator = (n * (n - 1)) / 2\n",
         new="        n = len(teams)\n        BradleyTerryFull.calls = getattr(BradleyTerryFull, 'calls', 0) + 1\n        denominator = (n * (n - 1)) / 2\n"),
    dict(id="c14-sort-by-id", fire=["C14"], file=TMP, old="        for index, team in enumerate(game):\n            mu_summed",
         new="        for index, team in enumerate(game):\n            team = sorted(team, key=lambda p: p.id)\n            mu_summed"),
    dict(id="c14-global-write", fire=["C14"], file=COMMON, old="    xt = x - t\n    denominator = phi_major(xt)\n    return (",
         new="    global _last\n    _last = x\n    xt = x - t\n    denominator = phi_major(xt)\n    return ("),
    dict(id="c14-limit-sigma-writeback", fire=["C14"], file=PL, old="        if limit_sigma is None:\n            limit_sigma = self.limit_sigma\n\n        if limit_sigma:",
         new="        if limit_sigma is not None:\n            self.limit_sigma = limit_sigma\n\n        if self.limit_sigma:"),
    # ------------------------------------------------------------------ C15
    dict(id="c15-limit-or", fire=["C15"], silent=["C14"], file=PL, old="        if limit_sigma is None:\n            limit_sigma = self.limit_sigma\n",
         new="        limit_sigma = limit_sigma or self.limit_sigma\n"),
    dict(id="c15-ctor-abs-tau", fire=["C15"], file=BTP, old="        self.tau: float = float(tau)", new="        self.tau: float = abs(float(tau))"),
    dict(id="c15-kernel-reads-tau", fire=["C15"], file=TMF, old="                mu += (sigma**2 / team_i.sigma_squared) * omega",
         new="                mu += (sigma**2 / team_i.sigma_squared) * omega * (1 + self.tau * 0.001)"),
    dict(id="c15-tau-truthiness", fire=["C15"], file=BTF, old="        tau = tau if tau is not None else self.tau", new="        tau = tau if tau else self.tau"),
    dict(id="c15-silent-if-none", silent=["C15", "C14", "C13", "C02"], file=PL, old="        tau = tau if tau is not None else self.tau",
         new="        if tau is None:\n            tau = self.tau"),
    # ------------------------------------------------------------------ C18
    dict(id="c18-le-as-lt", fire=["C18", "C19"], file=BTP, old="            if self.ordinal() <= other.ordinal():", new="            if self.ordinal() < other.ordinal():"),
    dict(id="c18-gt-mu", fire=["C18"], file=PL, old="            if self.ordinal() > other.ordinal():", new="            if self.mu > other.mu:"),
    dict(id="c18-ordinal-sigma-squared", fire=["C18"], file=PL, old="        return self.mu - z * self.sigma", new="        return self.mu - z * self.sigma**2"),
    dict(id="c18-eq-or", fire=["C18"], file=TMF, old="            if self.mu == other.mu and self.sigma == other.sigma:", new="            if self.mu == other.mu or self.sigma == other.sigma:"),
    dict(id="c18-z-default", fire=["C18", "C19"], file=TMF, old="    def ordinal(self, z: float = 3.0)", new="    def ordinal(self, z: float = 2.0)"),
    dict(id="c18-silent-return-compare", silent=["C18"], file=PL,
         old="            if self.ordinal() < other.ordinal():\n                return True\n            else:\n                return False", new="            return self.ordinal() < other.ordinal()"),
    # ------------------------------------------------------------------ C19
    dict(id="c19-tau-default-one-copy", fire=["C19"], file=TMF, old="tau: float = 25.0 / 300.0,", new="tau: float = 25.0 / 301.0,"),
    # ------------------------------------------------------------------ C20
    dict(id="c20-mu-or-default", fire=["C20"], file=PL, old="            mu if mu is not None else self.mu,", new="            mu or self.mu,"),
    dict(id="c20-deepcopy-drops-id", fire=["C20"], file=BTF, old="        blf.id = self.id\n", new=""),
    dict(id="c20-create-rating-swapped", fire=["C20"], file=BTP, old="                return BradleyTerryPartRating(mu=rating[0], sigma=rating[1], name=name)",
         new="                return BradleyTerryPartRating(mu=rating[1], sigma=rating[0], name=name)"),
    dict(id="c20-ctor-abs-sigma", fire=["C20"], file=TMF, old="        self.sigma: float = sigma\n\n    def __repr__", new="        self.sigma: float = abs(sigma)\n\n    def __repr__"),
    # ------------------------------------------------------------------ C03
    dict(id="c03-float-conversion", fire=["C03"], file=PL, old="                    team_scores.append(ranks[index])", new="                    team_scores.append(float(ranks[index]))"),
    dict(id="c03-reciprocal-score", fire=["C03"], file=MCOMMON, old="    return -number", new="    return 1 / number if number else 0"),
    dict(id="c03-negate-slice", fire=["C03"], file=BTF, old="            for score in scores:\n                ranks.append(_unary_minus(score))",
         new="            for score in scores[1:]:\n                ranks.append(_unary_minus(score))"),
    dict(id="c03-subtract-min", fire=["C03"], file=TMF, old="                    team_scores.append(ranks[index])", new="                    team_scores.append(ranks[index] - min(ranks))"),
    dict(id="c03-tie-tolerance", fire=["C03"], file=BTP, old="                if team_scores[index - 1] < team_scores[index]:", new="                if team_scores[index - 1] + 0.5 < team_scores[index]:"),
    dict(id="c03-int-only-type-test", fire=["C03"], file=TMP, old="                if isinstance(ranks[index], (int, float)):", new="                if isinstance(ranks[index], int):"),
    dict(id="c03-silent-drop-type-test", silent=["C03", "C13"], file=PL,
         old="                if isinstance(ranks[index], (int, float)):\n                    team_scores.append(ranks[index])\n                else:\n                    team_scores.append(index)",
         new="                team_scores.append(ranks[index])"),
    # ------------------------------------------------------------------ C02
    dict(id="c02-no-unwind", fire=["C02"], file=PL, old="            unwound_result = _unwind(tenet, result)[0]", new="            unwound_result = result"),
    dict(id="c02-unwind-with-ranks", fire=["C02"], file=PL, old="            unwound_result = _unwind(tenet, result)[0]", new="            unwound_result = _unwind(ranks, result)[0]"),
    dict(id="c02-clamp-wrong-player", fire=["C02"], file=BTF, old="                    player_original = original_teams[team_index][player_index]",
         new="                    player_original = original_teams[team_index][0]"),
    dict(id="c02-insert-front", fire=["C02"], file=BTP, old="                processed_result.append(team)\n        else:", new="                processed_result.insert(0, team)\n        else:"),
    dict(id="c02-conditional-append", fire=["C02"], file=TMF, old="                intermediate_result_per_team.append(modified_player)",
         new="                if sigma > 0.01:\n                    intermediate_result_per_team.append(modified_player)"),
    dict(id="c02-reverse-sort", fire=["C02", "C04"], file=COMMON, old="            zipped_matrix.sort(key=_pick_zeroth_index)", new="            zipped_matrix.sort(key=_pick_zeroth_index, reverse=True)"),
    dict(id="c02-keyless-sort", fire=["C04"], file=COMMON, old="            zipped_matrix.sort(key=_pick_zeroth_index)", new="            zipped_matrix.sort()"),
    dict(id="c02-clamp-skips-last-team", fire=["C02", "C06"], file=TMP, old="            for team_index, team in enumerate(processed_result):\n                final_team = []",
         new="            for team_index, team in enumerate(processed_result[:-1]):\n                final_team = []"),
    # ------------------------------------------------------------------ C04
    dict(id="c04-first-member-only", fire=["C04"], file=PL, old="            mu_summed = reduce(lambda x, y: x + y, map(lambda p: p.mu, team))", new="            mu_summed = team[0].mu * len(team)"),
    dict(id="c04-partial-fold", fire=["C04"], file=PL, old="            mu_summed = reduce(lambda x, y: x + y, map(lambda p: p.mu, team))",
         new="            mu_summed = reduce(lambda x, y: x + y, map(lambda p: p.mu, team[:2]))"),
    dict(id="c04-position-weight", fire=["C04", "C05"], file=BTF, old="                mu += (sigma**2 / team_i.sigma_squared) * omega",
         new="                mu += (sigma**2 / team_i.sigma_squared) * omega * (1 + 0.001 * j)"),
    dict(id="c04-silent-sum-generator", silent=["C04", "C02", "C16", "C08"], file=TMP,
         old="            sigma_squared = reduce(lambda x, y: x + y, map(lambda p: p.sigma**2, team))", new="            sigma_squared = sum(p.sigma**2 for p in team)"),
    # ------------------------------------------------------------------ C10
    dict(id="c10-first-team-size", fire=["C10"], file=PL, old="        total_player_count = sum([len(_) for _ in teams])\n        draw_probability = 1 / total_player_count\n        draw_margin = (\n            math.sqrt(total_player_count)\n            * self.beta\n            * phi_major_inverse((1 + draw_probability) / 2)\n        )\n\n        pairwise_probabilities = []\n        for pair_a, pair_b in itertools.permutations(teams, 2):\n            pair_a_subset = self._calculate_team_ratings([pair_a])\n            pair_b_subset = self._calculate_team_ratings([pair_b])\n            mu_a = pair_a_subset[0].mu\n            sigma_a = pair_a_subset[0].sigma_squared\n            mu_b = pair_b_subset[0].mu\n            sigma_b = pair_b_subset[0].sigma_squared\n            pairwise_probabilities.append(\n                phi_major(\n                    (draw_margin - mu_a + mu_b)",
         new="        total_player_count = len(teams[0]) * n\n        draw_probability = 1 / total_player_count\n        draw_margin = (\n            math.sqrt(total_player_count)\n            * self.beta\n            * phi_major_inverse((1 + draw_probability) / 2)\n        )\n\n        pairwise_probabilities = []\n        for pair_a, pair_b in itertools.permutations(teams, 2):\n            pair_a_subset = self._calculate_team_ratings([pair_a])\n            pair_b_subset = self._calculate_team_ratings([pair_b])\n            mu_a = pair_a_subset[0].mu\n            sigma_a = pair_a_subset[0].sigma_squared\n            mu_b = pair_b_subset[0].mu\n            sigma_b = pair_b_subset[0].sigma_squared\n            pairwise_probabilities.append(\n                phi_major(\n                    (draw_margin - mu_a + mu_b)"),
    dict(id="c10-inverse-cdf-domain", fire=["C10", "C08"], file=TMF, old=PAIR_BLOCK_DRAW, new=PAIR_BLOCK_DRAW.replace("1 / total_player_count", "1 / (total_player_count - 1)")),
    dict(id="c10-silent-fsum", silent=["C10"], file=PL, old="        return abs(sum(pairwise_probabilities)) / denominator", new="        return abs(math.fsum(pairwise_probabilities)) / denominator"),
    # ------------------------------------------------------------------ C16
    dict(id="c16-beta-not-squared", fire=["C16"], file=PL, old="                    (mu_a - mu_b) / math.sqrt(n * self.beta**2 + sigma_a + sigma_b)",
         new="                    (mu_a - mu_b) / math.sqrt(n * self.beta + sigma_a + sigma_b)"),
    dict(id="c16-c-not-squared", fire=["C16"], file=PL, old="            delta *= team_i.sigma_squared / c**2", new="            delta *= team_i.sigma_squared / c"),
    dict(id="c16-dimensional-floor", fire=["C16"], file=BTF, old="                    max(1 - (sigma**2 / team_i.sigma_squared) * delta, self.kappa),",
         new="                    max(1 - (sigma**2 / team_i.sigma_squared) * delta, self.kappa * c),"),
    dict(id="c16-prediction-times-beta", fire=["C16"], file=TMF, old="        return abs(sum(pairwise_probabilities)) / denominator", new="        return abs(sum(pairwise_probabilities)) / denominator * self.beta"),
    dict(id="c16-kappa-new-place", fire=["C16"], file=TMF, old="                delta_mu = (team_i.mu - team_q.mu) / c_iq", new="                delta_mu = (team_i.mu - team_q.mu) / c_iq + self.kappa * team_i.mu"),
    dict(id="c16-silent-square-as-product", silent=["C16", "C19"], all5=True, file=PL, old="        beta_squared = self.beta**2", new="        beta_squared = self.beta * self.beta"),
    dict(id="c16-shift-softmax-scale", fire=["C16"], file=PL, old="            i_mu_over_c = math.exp(team_i.mu / c)", new="            i_mu_over_c = math.exp(team_i.mu / (2 * self.beta))"),
    dict(id="c16-shift-half-mu", fire=["C16", "C09"], file=BTF,
         old="                    (mu_a - mu_b) / math.sqrt(n * self.beta**2 + sigma_a + sigma_b)\n                )\n            )\n\n        return [",
         new="                    (mu_a - 0.5 * mu_b) / math.sqrt(n * self.beta**2 + sigma_a + sigma_b)\n                )\n            )\n\n        return ["),
    dict(id="c16-shift-mu-drift", fire=["C16", "C05"], file=TMP, old="                mu += (sigma**2 / team_i.sigma_squared) * i_omega", new="                mu += (sigma**2 / team_i.sigma_squared) * i_omega + 1e-3 * mu"),
    dict(id="c16-shift-two-scales", fire=["C16", "C07"], file=BTP, old="                    p_iq = 1 / (1 + math.exp((team_q.mu - team_i.mu) / c_iq))",
         new="                    p_iq = 1 / (1 + math.exp(team_q.mu / c_iq - team_i.mu / (beta * 3)))"),
    # ------------------------------------------------------------------ C09 / C11
    dict(id="c09-asymmetric-scale", fire=["C09"], file=PL,
         old="                    (mu_a - mu_b) / math.sqrt(n * self.beta**2 + sigma_a + sigma_b)\n                )\n            )\n\n        return [",
         new="                    (mu_a - mu_b) / math.sqrt(n * self.beta**2 + sigma_a + sigma_a)\n                )\n            )\n\n        return ["),
    dict(id="c09-chunk-size", fire=["C09"], file=BTP, old="                *[iter(pairwise_probabilities)] * (n - 1)\n            )\n        ]\n\n    def predict_draw",
         new="                *[iter(pairwise_probabilities)] * n\n            )\n        ]\n\n    def predict_draw"),
    dict(id="c09-sum-of-mus", fire=["C09"], file=TMP, old="                (a.mu - b.mu)\n                / math.sqrt(", new="                (a.mu + b.mu)\n                / math.sqrt("),
    dict(id="c09-silent-helper-vars", silent=["C09", "C16"], file=PL,
         old="            pairwise_probabilities.append(\n                phi_major(\n                    (mu_a - mu_b) / math.sqrt(n * self.beta**2 + sigma_a + sigma_b)\n                )\n            )\n\n        return [",
         new="            scale = math.sqrt(sigma_b + sigma_a + self.beta**2 * n)\n            z = -(mu_b - mu_a) / scale\n            pairwise_probabilities.append(phi_major(z))\n\n        return ["),
    dict(id="c11-rank-denominator", fire=["C11"], file=PL, old="        denom = (n * (n - 1)) / 2", new="        denom = n * (n - 1)"),
    dict(id="c11-rank-variance-term", fire=["C11"], file=BTF,
         old="                    (mu_a - mu_b - draw_margin)\n                    / math.sqrt(n * self.beta**2 + sigma_a + sigma_b)\n                )\n            )\n        win_probability",
         new="                    (mu_a - mu_b - draw_margin)\n                    / math.sqrt(total_player_count * self.beta**2 + sigma_a + sigma_b)\n                )\n            )\n        win_probability"),
    dict(id="c11-zip-misaligned", fire=["C11"], file=TMF, old="        predictions = list(zip(ranks, ranked_probability))", new="        predictions = list(zip(ranks, ranked_probability[1:]))"),
    # ------------------------------------------------------------------ C07
    dict(id="c07-tie-score", fire=["C07"], file=BTF, old="                    s = 0.5", new="                    s = 0.4"),
    dict(id="c07-asymmetric-ciq", fire=["C07"], file=BTF,
         old="                c_iq = math.sqrt(\n                    team_i.sigma_squared + team_q.sigma_squared + (2 * beta**2)\n                )",
         new="                c_iq = math.sqrt(\n                    team_i.sigma_squared + (2 * beta**2)\n                )"),
    dict(id="c07-loss-branch-sign", fire=["C07"], file=TMF, old="                    omega += -sigma_squared_to_ciq * v(-delta_mu, self.kappa / c_iq)",
         new="                    omega += -sigma_squared_to_ciq * v(delta_mu, self.kappa / c_iq)"),
    dict(id="c07-pl-fill-relation", fire=["C07"], file=PL, old="                if team_i.rank >= team_q.rank:\n                    if q in sum_q:",
         new="                if team_i.rank > team_q.rank or i == q:\n                    if q in sum_q:"),
    dict(id="c07-pl-tie-divisor", fire=["C07"], file=PL, old="                        omega -= i_mu_over_ce_over_sum_q / a[q]", new="                        omega -= i_mu_over_ce_over_sum_q / a[i]"),
    dict(id="c07-silent-symmetric-factor", silent=["C07"], file=TMP, old="                    c_iq = 2 * math.sqrt(", new="                    c_iq = 2.5 * math.sqrt("),
    # ------------------------------------------------------------------ C17
    dict(id="c17-w-threshold", fire=["C17"], file=COMMON, old="    if denominator < sys.float_info.epsilon:\n        return 1 if (x < 0) else 0", new="    if denominator < 1e-30:\n        return 1 if (x < 0) else 0"),
    dict(id="c17-v-asymptote-sign", fire=["C17"], file=COMMON, old="        -xt if (denominator < sys.float_info.epsilon) else phi_minor(xt) / denominator",
         new="        xt if (denominator < sys.float_info.epsilon) else phi_minor(xt) / denominator"),
    dict(id="c17-cancelling-cdf", fire=["C17", "C06"], file=COMMON, old="    return 0.5 * math.erfc(-x / math.sqrt(2.0))", new="    return _normal.cdf(x)"),
    dict(id="c17-silent-sign-split-cdf", silent=["C17", "C06", "C08", "C09"], file=COMMON, old="    return 0.5 * math.erfc(-x / math.sqrt(2.0))",
         new="    if x >= 0:\n        return 0.5 * (1.0 + math.erf(x / math.sqrt(2.0)))\n    return 0.5 * math.erfc(-x / math.sqrt(2.0))"),
    # ------------------------------------------------------------------ C08
    dict(id="c08-floor-removed", fire=["C08", "C06"], file=BTF, old="                    max(1 - (sigma**2 / team_i.sigma_squared) * delta, self.kappa),",
         new="                    1 - (sigma**2 / team_i.sigma_squared) * delta,"),
    dict(id="c08-wt-guard", fire=["C08", "C17"], file=COMMON, old="    if b < sys.float_info.epsilon:\n        return 1.0", new="    if b < 0:\n        return 1.0"),
    dict(id="c08-beta-dropped-from-scale", fire=["C08"], file=TMP,
         old="                    c_iq = 2 * math.sqrt(\n                        team_i.sigma_squared + team_q.sigma_squared + (2 * beta**2)\n                    )",
         new="                    c_iq = 2 * math.sqrt(\n                        team_i.sigma_squared + team_q.sigma_squared\n                    )"),
    # ------------------------------------------------------------------ C06
    dict(id="c06-clamp-operator", fire=["C06"], file=PL,
         old="                    if player.sigma <= player_original.sigma:\n                        player.sigma = player.sigma",
         new="                    if player.sigma >= player_original.sigma:\n                        player.sigma = player.sigma"),
    dict(id="c06-linear-inflation", fire=["C06"], file=BTF,
         old="                teams[team_index][player_index].sigma = math.sqrt(\n                    player.sigma * player.sigma + tau_squared\n                )",
         new="                teams[team_index][player_index].sigma = player.sigma + tau"),
    dict(id="c06-one-plus", fire=["C06"], file=BTP, old="                    max(1 - (sigma**2 / team_i.sigma_squared) * i_delta, self.kappa),",
         new="                    max(1 + (sigma**2 / team_i.sigma_squared) * i_delta, self.kappa),"),
    dict(id="c06-min-for-max", fire=["C06"], file=TMF, old="                    max(1 - (sigma**2 / team_i.sigma_squared) * delta, self.kappa),",
         new="                    min(1 - (sigma**2 / team_i.sigma_squared) * delta, self.kappa),"),
    # ------------------------------------------------------------------ C05
    dict(id="c05-score-branches-swapped", fire=["C05"], file=BTF, old="                if team_q.rank > team_i.rank:\n                    s = 1.0", new="                if team_q.rank < team_i.rank:\n                    s = 1.0"),
    dict(id="c05-other-players-share", fire=["C05"], file=PL, old="                mu += (sigma**2 / team_i.sigma_squared) * omega", new="                mu += (team_i.team[0].sigma**2 / team_i.sigma_squared) * omega"),
    dict(id="c05-pl-own-stage-sign", fire=["C05"], file=PL, old="                        omega += (1 - i_mu_over_ce_over_sum_q) / a[q]", new="                        omega -= (1 - i_mu_over_ce_over_sum_q) / a[q]"),
    # ------------------------------------------------------------------ finite-ordering rules (C04 R4.5, C05 R5.3, C11 R11.4) and later additions
    dict(id="c04-tie-lost-in-rank-numbers", fire=["C04", "C05"], all5=True, file=PL, old="                if team_scores[index - 1] < team_scores[index]:", new="                if team_scores[index - 1] <= team_scores[index]:"),
    dict(id="c04-false-tie-in-rank-numbers", fire=["C04", "C05"], file=BTF, old="                if team_scores[index - 1] < team_scores[index]:\n                    s = index", new="                if team_scores[index - 1] < team_scores[index]:\n                    s = s"),
    dict(id="c11-rank-inversion-by-n", fire=["C11"], file=TMF, old="        max_ordinal = max(ranks)\n        ranks = [abs(_ - max_ordinal) + 1 for _ in ranks]", new="        ranks = [n - _ + 1 for _ in ranks]"),
    dict(id="c11-silent-rank-inversion-without-abs", silent=["C11"], file=TMF, old="        ranks = [abs(_ - max_ordinal) + 1 for _ in ranks]", new="        ranks = [max_ordinal - _ + 1 for _ in ranks]"),
    dict(id="c11-rank-data-ties-split", fire=["C11"], file=MCOMMON, old="            or arg_sorted_vector[index] != arg_sorted_vector[index + 1]", new="            or arg_sorted_vector[index] <= arg_sorted_vector[index + 1]"),
    dict(id="c11-silent-rank-data-max-method", silent=["C11"], file=MCOMMON, old="                    index + 1 - duplicate_count + 1", new="                    index + 1"),
    dict(id="c15-copy-before-resolution", fire=["C15", "C06"], all5=True, file=PL, old="        original_teams = copy.deepcopy(teams)", new="        original_teams = copy.deepcopy(teams) if limit_sigma else teams"),
    dict(id="c07-team-identified-by-value", fire=["C07"], file=BTF, old="                if q == i:\n                    continue", new="                if team_q == team_i:\n                    continue"),
    dict(id="c09-pair-skipped-by-value", fire=["C09"], file=PL,
         old="        pairwise_probabilities = []\n        for pair_a, pair_b in itertools.permutations(teams, 2):\n            pair_a_subset = self._calculate_team_ratings([pair_a])\n            pair_b_subset = self._calculate_team_ratings([pair_b])\n            mu_a = pair_a_subset[0].mu\n            sigma_a = pair_a_subset[0].sigma_squared\n            mu_b = pair_b_subset[0].mu\n            sigma_b = pair_b_subset[0].sigma_squared\n            pairwise_probabilities.append(\n                phi_major(\n                    (mu_a - mu_b) / math.sqrt(n",
         new="        pairwise_probabilities = []\n        for pair_a, pair_b in itertools.permutations(teams, 2):\n            if pair_a == pair_b:\n                pairwise_probabilities.append(0.0)\n                continue\n            pair_a_subset = self._calculate_team_ratings([pair_a])\n            pair_b_subset = self._calculate_team_ratings([pair_b])\n            mu_a = pair_a_subset[0].mu\n            sigma_a = pair_a_subset[0].sigma_squared\n            mu_b = pair_b_subset[0].mu\n            sigma_b = pair_b_subset[0].sigma_squared\n            pairwise_probabilities.append(\n                phi_major(\n                    (mu_a - mu_b) / math.sqrt(n"),
    dict(id="c09-margin-operands-swapped", fire=["C09"], file=BTP, old="(mu_a - mu_b) / math.sqrt(n * self.beta**2 + sigma_a + sigma_b)", new="(mu_b - mu_a) / math.sqrt(n * self.beta**2 + sigma_a + sigma_b)"),
    # ------------------------------------------------------------------ round-3 additions
    dict(id="silent-explicit-accumulation-loops", silent=["C02", "C04", "C05", "C06", "C07", "C09", "C10", "C11", "C16"], all5=True, file=PL,
         old="            mu_summed = reduce(lambda x, y: x + y, map(lambda p: p.mu, team))\n            sigma_squared = reduce(lambda x, y: x + y, map(lambda p: p.sigma**2, team))",
         new="            mu_summed = 0.0\n            sigma_squared = 0.0\n            for member in team:\n                mu_summed += member.mu\n                sigma_squared += member.sigma**2"),
    dict(id="c14-prediction-writes-ratings", fire=["C14", "C09"], file=TMP, old="        n = len(teams)\n        denominator = (n * (n - 1)) / 2\n",
         new="        n = len(teams)\n        for team in teams:\n            for player in team:\n                player.sigma = math.sqrt(player.sigma * player.sigma + self.tau * self.tau)\n        denominator = (n * (n - 1)) / 2\n"),
    # ------------------------------------------------------------------ C12 (explicit games against the statement's closed forms)
    dict(id="c12-win-count-off-by-one", fire=["C12"], silent=["C09", "C16"], all5=True, file=PL,
         old="(mu_a - mu_b) / math.sqrt(n * self.beta**2 + sigma_a + sigma_b)", new="(mu_a - mu_b) / math.sqrt((n + 1) * self.beta**2 + sigma_a + sigma_b)"),
    dict(id="c12-draw-normaliser-halved", fire=["C12", "C11"], all5=True, file=PL, old="            denominator = n * (n - 1)\n", new="            denominator = n * (n - 1) / 2\n"),
    dict(id="c12-draw-margin-team-count", fire=["C12", "C11"], all5=True, file=PL, old="            math.sqrt(total_player_count)\n", new="            math.sqrt(n)\n"),
    dict(id="c12-two-team-count", fire=["C12"], silent=["C09"], all5=True, file=PL, old="                    total_player_count * self.beta**2\n", new="                    n * self.beta**2\n"),
    dict(id="c12-silent-complement-form", silent=["C12", "C09", "C11"], all5=True, file=PL, old="            return [result, 1 - result]", new="            other = 1 - result\n            return [1 - other, other]"),
    # ------------------------------------------------------------------ C01 (explicit games against the transcribed closed forms)
    dict(id="c01-pl-gamma-squared", fire=["C01"], silent=["C07", "C16"], file=PL, old="            delta *= gamma_value\n", new="            delta *= gamma_value * gamma_value\n"),
    dict(id="c01-btf-variance-step-doubled", fire=["C01", "C19"], silent=["C07", "C16"], file=BTF, old="                delta += ((gamma_value * sigma_squared_to_ciq) / c_iq) * piq * (1 - piq)", new="                delta += ((2 * gamma_value * sigma_squared_to_ciq) / c_iq) * piq * (1 - piq)"),
    dict(id="c01-tmf-scale-three-beta", fire=["C01"], silent=["C16"], file=TMF, old="team_i.sigma_squared + team_q.sigma_squared + (2 * beta**2)", new="team_i.sigma_squared + team_q.sigma_squared + (3 * beta**2)"),
    dict(id="c01-silent-share-hoisted", silent=["C01", "C05", "C06"], file=PL, old="                mu += (sigma**2 / team_i.sigma_squared) * omega\n                sigma *= math.sqrt(\n                    max(1 - (sigma**2 / team_i.sigma_squared) * delta, self.kappa),\n                )",
         new="                share = sigma * sigma / team_i.sigma_squared\n                mu += omega * share\n                sigma *= math.sqrt(max(self.kappa, 1 - delta * share))"),
]
