import sys
sys.path.insert(0,'/verif')
from osv.frontend import Program
from osv.rules.harness import run_op
from osv.ai.values import *
prog=Program()
idx=int(sys.argv[1]); sel=sys.argv[2]; ls=sys.argv[3]
r=prog.roles()[idx]
kw={'tau':'any','limit_sigma':ls}
if sel!='none': kw[sel]='list-of-mixed-int-float-bool'
oc=run_op(prog,r,'rate',**kw)
I=oc.I; st=oc.world.state
print('undecided',oc.undecided,'returned',oc.returned)
res=oc.result
print('result',short(res))
for p in (res.opts if isinstance(res,Union) else [res]):
    s=I.list_seq(st,p); print(' outer',short(s))
    e=s.elem
    if isinstance(e,Ptr):
        print('   inner',short(I.list_seq(st,e)))
print('sorts',[(e.data['pid'],e.func.split('::')[-1],e.data['info']['inverse_of'],short(e.data['info']['keyval'])) for e in I.events if e.kind=='sort'])
print('strong',[(e.data['loc'],e.data['field']) for e in I.events if e.kind=='strong-update'])
for loc,c in st.heap.items():
    if '__deepcopy__' in loc and hasattr(c.obj,'fields'):
        print('COPYCELL',loc[-40:],c.params,[(n,short(v),getattr(v,'sym',None)) for n,v in c.obj.fields])
print('player sigma', [ (n,short(v),getattr(v,'sym',None)) for n,v in st.heap['IN.player'].obj.fields if n=='sigma'])
