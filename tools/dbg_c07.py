import sys
sys.path.insert(0,'/verif')
from osv.frontend import Program
from osv.rules.harness import run_op, where
from osv.ai.values import *
from osv.poly import to_poly, show
from dataclasses import replace
prog=Program()
idx=int(sys.argv[1]); rel=sys.argv[2] if len(sys.argv)>2 else None
r=prog.roles()[idx]
incs=[]; cmps=[]
common=prog.modules['openskill.models.weng_lin.common']
def setup(w):
    I=w.I
    I.opaque_funcs={common.funcs[n].fq for n in ('v','w','vt','wt','phi_major')}; I.number_locals=True
    def aug(I, st, cur, rhs, v, state):
        import ast
        tag=f"ACC:{I.cur_func().split('::')[-1]}:{ast.unparse(st.target)}"
        incs.append((tag,type(st.op).__name__,rhs,st.lineno))
        if isinstance(v,Num): return replace(v,prov=v.prov|{tag})
    def compare(I,node,op,a,b):
        if a.sym and b.sym:
            cmps.append((I.cur_func().split('::')[-1],type(op).__name__,a.sym,b.sym))
    I.hooks.update(aug=aug,compare=compare)
    if rel:
        pass
oc=run_op(prog,r,'rate',ranks='list-of-int',tau='any',limit_sigma='falsy',custom_gamma=True,setup=setup)
print('undecided',oc.undecided)
seen=set()
for t,op,rhs,ln in incs:
    k=(t,op,ln)
    if k in seen: continue
    seen.add(k)
    print(t,op,ln,'sym' if getattr(rhs,'sym',None) else 'NOSYM', sorted(x for x in getattr(rhs,'prov',()) if x.startswith('CALLBACK') or x.startswith('ACC')))
    if getattr(rhs,'sym',None): print('     ',show(to_poly(rhs.sym),300))
print({c for c in cmps})
for ev in oc.I.events:
    if ev.kind=='write' and ev.data['origin']=='input:player' and ev.data['field'] in('mu','sigma') and '_compute' in ev.func:
        print(ev.data['field'], sorted(x for x in ev.data['val'].prov if x.startswith('ACC') or x.startswith('CALLB')), ev.data['ptr'])
        break
