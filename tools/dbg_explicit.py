import sys, time
sys.path.insert(0,'/verif')
from osv.frontend import Program
from osv.ai.world import World, Box
from osv.ai.values import *
from osv.poly import to_poly, show
prog=Program()
which=int(sys.argv[1]) if len(sys.argv)>1 else 0
n=int(sys.argv[2]) if len(sys.argv)>2 else 3
order=sys.argv[3] if len(sys.argv)>3 else 'LT,LT'
r=prog.roles()[which]
t0=time.time()
w=World(prog,r,Box())
m=w.make_model()
teams=w.make_teams(n=(n,n), m=(1,1))
I=w.I
I.number_locals=True
common=prog.modules.get(prog.package+'.models.weng_lin.common')
I.opaque_funcs={common.funcs[n].fq for n in ('v','w','vt','wt','phi_major','phi_minor') if n in common.funcs}
tseq=I.bi.concretise(I.list_seq(w.state,teams),n)
print('tseq',short(tseq))
game=I.new_list(w.state,list(tseq.fixed),r.model.node,"game")
vals=[Num(kinds=frozenset({"int","float"}),rng=None,sym=("param",f"x.v{i}"),prov=frozenset({"RANKRAW"})) for i in range(n)]
adj=order.split(',')
level=[0]
for a in adj: level.append(level[-1]+(1 if a=='LT' else 0))
for i in range(n):
    for j in range(i+1,n):
        w.state.rel_set(vals[i].sym,vals[j].sym,frozenset({"LT" if level[i]<level[j] else "EQ"}))
ranks=I.new_list(w.state,vals,r.model.node,"ranksarg")
I.events.clear(); I.raises.clear()
res=w.call(m,'rate',[game],{'ranks':ranks,'limit_sigma':Bool(False,frozenset(),None),'tau':Num(kinds=frozenset({'float'}),sym=('param','arg.tau'))})
print('time',time.time()-t0,'bottom',w.state.bottom)
print('undecided',I.undecided[:5])
print('result',short(res))
print('overlay')
for k,v in w.state.overlay.items(): print('  ',k,(short(v)[:200], show(to_poly(v.sym)) if getattr(v,'sym',None) is not None else None))
print('raises',[(e.data['exc'],e.func.split('::')[-1],e.node.lineno,e.data.get('implicit')) for e in I.raises])
for e in I.events:
    if e.kind=='isinstance': print('isinstance', short(e.data['val']), short(e.data['cls']), e.data['result'], e.node.lineno)
