import sys, time
sys.path.insert(0,'/verif')
from osv.frontend import Program
from osv.rules.game import *
from osv.poly import show
prog=Program()
which=int(sys.argv[1]); sizes=tuple(int(x) for x in sys.argv[2].split(','))
levels=tuple(int(x) for x in sys.argv[3].split(',')) if len(sys.argv)>3 and sys.argv[3]!='-' else None
mode=sys.argv[4] if len(sys.argv)>4 else 'ranks'
r=prog.roles()[which]
t0=time.time()
run=run_rate(prog,r,sizes,levels,mode=mode)
print('time',round(time.time()-t0,2),'problem',run.ok())
pos=result_positions(run)
print('positions',[[ [k for k,p in run.players.items() if p==x] for x in t] for t in pos] if pos else short(run.result))
for who in run.players:
    mu=run.field(who,'mu'); sg=run.field(who,'sigma')
    print(who,'mu',show(poly_of(mu),400))
    print(who,'sigma',show(poly_of(sg),400), short(sg)[:100] if poly_of(sg) is None else '')
