import sys
sys.path.insert(0,'/verif')
from osv.frontend import Program
from osv.rules.harness import run_op
from osv.ai.world import Box
from osv.ai.values import *
from osv.poly import to_poly, show
prog=Program()
idx=int(sys.argv[1]); op=sys.argv[2]; n=eval(sys.argv[3])
r=prog.roles()[idx]
oc=run_op(prog,r,op,n=n,box=Box(ranges=True,degrees=True))
I=oc.I; st=oc.world.state
print('undecided',oc.undecided,'returned',oc.returned,'raises',[e.data['exc'] for e in oc.raises])
res=oc.result
print('result',short(res))
if isinstance(res,Ptr): print('  seq',short(I.list_seq(st,res)))
if isinstance(res,Num): print('  sym size',sym_size(res.sym) if res.sym else None); print('  poly',show(to_poly(res.sym),600))
bad=[d for d in I.obligations.values() if not d['ok']]
print('obligations',len(I.obligations),'failed',[(d['kind'],d['node'].lineno,d['msgs']) for d in bad])
print('diags failed',[(d['kind'],d['node'].lineno,d['msgs']) for d in I.diags.values() if not d['ok']])
