import sys, time
sys.path.insert(0,'/verif')
from osv.frontend import Program
from osv.ai.world import World, Box
from osv.ai.values import *
prog=Program()
which=int(sys.argv[1]) if len(sys.argv)>1 else 0
mode=sys.argv[2] if len(sys.argv)>2 else 'ranks'
r=prog.roles()[which]
t0=time.time()
w=World(prog,r,Box(ranges=True,degrees=True))
m=w.make_model()
teams=w.make_teams()
kw={}
if mode=='ranks':
    kw['ranks']=w.make_number_list('IN.ranks',tag='RANKRAW')
elif mode=='scores':
    kw['scores']=w.make_number_list('IN.scores',tag='RANKRAW')
res=w.call(m,'rate',[teams],kw)
print('time',time.time()-t0)
print('bottom',w.state.bottom)
print('result',short(res))
I=w.I
if isinstance(res,Ptr):
    s=I.list_seq(w.state,res); print(' outer',short(s))
    e=s.elem
    if isinstance(e,Ptr):
        print(' inner',short(I.list_seq(w.state,e)))
print('undecided',I.undecided)
print('raises',[(e.data['exc'],e.func.split('::')[-1],e.node.lineno,e.data['implicit'],sorted(e.data['effects'])) for e in I.raises])
print('player fields', [(n,short(v)) for n,v in w.state.heap['IN.player'].obj.fields])
print('overlay',{k:short(v) for k,v in w.state.overlay.items()})
print('model fields', [(n,short(v)) for n,v in w.state.heap[m.loc].obj.fields])
print('writes',sorted({(e.data['origin'],e.data['field'],e.func.split('::')[-1],e.node.lineno) for e in I.events if e.kind=='write'}))
bad=[d for d in I.obligations.values() if not d['ok']]
print('obligations',len(I.obligations),'failed',len(bad))
for d in bad: print('   ',d['kind'],d['func'].split('::')[-1],d['node'].lineno,d['msgs'])
badd=[d for d in I.diags.values() if not d['ok']]
print('diags',len(I.diags),'failed',len(badd))
for d in badd: print('   ',d['domain'],d['kind'],d['func'].split('::')[-1],d['node'].lineno,d['msgs'])
