import sys
sys.path.insert(0,'/verif')
from osv.frontend import Program
from osv.ai.world import World, Box
from osv.ai.values import *
prog=Program()
r=prog.roles()[0]
w=World(prog,r)
teams=w.make_teams()
ranks=w.make_number_list('IN.ranks',tag='RANKRAW')
fi=prog.modules['openskill.models.weng_lin.common'].funcs['_unwind']
res=w.I.call_function(FuncV(fi=fi,node=fi.node,module=fi.module),[ranks,teams],{},fi.node,w.state)
print(short(res))
print(w.I.undecided)
for x in res.items:
    if isinstance(x,Ptr): print('  ',short(w.I.list_seq(w.state,x)))
