#!/usr/bin/env python3
"""Regenerate the experiment tables of DESIGN.md (between <!-- GEN:name --> ... <!-- /GEN:name --> markers) from seeded/*/meta.json."""
import glob, json, os, re
D = '/verif/DESIGN.md'
s = open(D).read()

def rows(prefixes):
    out = []
    for d in sorted(glob.glob('/verif/seeded/*')):
        b = os.path.basename(d)
        if not any(b.startswith(p) for p in prefixes) or not os.path.exists(d + '/meta.json'):
            continue
        m = json.load(open(d + '/meta.json'))
        out.append((b, m))
    return out

def breaking_table(prefixes):
    lines = ['| seeded change | written against | detected by (exit 1) | undecided (exit 2) | own property |', '|---|---|---|---|---|']
    tot = own = anyd = 0
    for b, m in rows(prefixes):
        p = m.get('property'); det = m.get('detected_by', []); und = m.get('undecided_by', [])
        tot += 1; own += p in det; anyd += bool(det)
        lines.append(f"| `{b[:46]}` | {p} | {', '.join(det) or '—'} | {', '.join(und) or '—'} | {'own' if p in det else 'undecided' if p in und else 'other' if det else '**none**'} |")
    return '\n'.join(lines), tot, own, anyd

def refactor_table(prefixes=('R',)):
    lines = ['| refactoring | what it does | silent | false alarms | undecided |', '|---|---|---|---|---|']
    n = ok = 0
    NCHK = 20
    for b, m in rows(list(prefixes)):
        what = ' '.join((m.get('what') or '').split())
        what = what.split(' - ', 1)[-1] if ' - ' in what[:40] else what
        nev = len(m.get('check_results', {})) or NCHK
        n += 1; ok += len(m.get('silent_for', [])) == nev
        lines.append(f"| `{b}` | {what[:200].rstrip()}… | {len(m.get('silent_for', []))}/{nev} | {', '.join(m.get('false_alarms', [])) or '—'} | {', '.join(m.get('undecided_by', [])) or '—'} |")
    return '\n'.join(lines), n, ok

def put(name, text):
    global s
    pat = re.compile(r'<!-- GEN:%s -->.*?<!-- /GEN:%s -->' % (name, name), re.S)
    assert pat.search(s), name
    s = pat.sub(lambda _: f'<!-- GEN:{name} -->\n{text}\n<!-- /GEN:{name} -->', s)

t1, n1, own1, any1 = breaking_table(['C', 'D'])
put('round1', t1 + f"\n\nRound 1 (54 agent changes + 4 reverse patches of the repaired defects): {any1}/{n1} detected by at least one check, {own1}/{n1} by the check of the property they were written against.")
t2, n2, own2, any2 = breaking_table(['W2-'])
put('round2', t2 + f"\n\nRound 2: {any2}/{n2} detected by at least one check, {own2}/{n2} by the check of the property they were written against.")
if '<!-- GEN:round3 -->' in s:
    t4, n4, own4, any4 = breaking_table(['W3-'])
    put('round3', t4 + f"\n\nRound 3: {any4}/{n4} detected by at least one check, {own4}/{n4} by the check of the property they were written against.")
t3, n3, ok3 = refactor_table(['R1-', 'R2-', 'R3-', 'R4-', 'R5-', 'R6-', 'R7-'])
put('refactors', t3 + f"\n\n{ok3}/{n3} refactorings silent on every check evaluated on them (18 checks where the meta predates the C01 and C12 checks, 20 where it was re-evaluated in the 2026-09-29 session).")
for name, pref in (('round4', ['W4-']), ('round5', ['W5-'])):
    if f'<!-- GEN:{name} -->' in s:
        t, n, own, anyd = breaking_table(pref)
        put(name, t + f"\n\n{name.capitalize().replace('d', 'd ')}: {anyd}/{n} detected by at least one check, {own}/{n} by the check of the property they were written against.")
if '<!-- GEN:refactors2 -->' in s:
    t5, n5, ok5 = refactor_table(['R8-', 'R9-', 'R10-', 'R11-', 'R12-'])
    nofa = sum(1 for b, m in rows(['R8-', 'R9-', 'R10-', 'R11-', 'R12-']) if not m.get('false_alarms'))
    put('refactors2', t5 + f"\n\n{ok5}/{n5} silent on all checks evaluated; {nofa}/{n5} without a false alarm (the others: exit 1 on behaviour-preserving code, listed above).")
open(D, 'w').write(s)
print('round1', n1, own1, any1, '| round2', n2, own2, any2, '| refactors', n3, ok3)
