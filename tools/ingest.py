#!/venv/bin/python
"""ingest.py PID : verify the sub-agent's changes for property PID independently and store them under /verif/seeded/."""
import json, os, re, shutil, subprocess, sys, tempfile
sys.path.insert(0, '/verif')
PID = sys.argv[1]
WAVE = sys.argv[2] if len(sys.argv) > 2 else ''   # '' = first round (/tmp/wt_PID), '2' = second round (/tmp/wt2_PID, stored as W2-...)
src = f'/tmp/wt{WAVE}_{PID}/out'
ALL = ['C01','C02','C03','C04','C05','C06','C07','C08','C09','C10','C11','C12','C13','C14','C15','C16','C17','C18','C19','C20']
def sh(cmd, cwd=None, env=None):
    r = subprocess.run(cmd, cwd=cwd, env=env, capture_output=True, text=True, shell=isinstance(cmd, str))
    return r.returncode, (r.stdout + r.stderr)
for n in (1, 2, 3, 4):
    diff = os.path.join(src, f'change_{n}.diff'); demo = os.path.join(src, f'demo_{n}.py'); note = os.path.join(src, f'note_{n}.md')
    if not (os.path.exists(diff) and os.path.exists(demo)):
        continue
    wt = tempfile.mkdtemp(prefix=f'ing_{PID}_{n}_', dir='/tmp')
    os.rmdir(wt)
    sh(['git', '-C', '/repo', 'worktree', 'add', '-q', wt, 'HEAD'])
    try:
        env = dict(os.environ, PYTHONPATH=wt)
        shutil.copy(demo, os.path.join(wt, 'demo.py'))
        c0, o0 = sh(['/venv/bin/python', 'demo.py'], cwd=wt, env=env)
        ca, oa = sh(['git', 'apply', '--whitespace=nowarn', diff], cwd=wt)
        if ca != 0:
            print(f'{PID}-{n}: PATCH DOES NOT APPLY: {oa[:200]}'); continue
        ct, ot = sh(['/venv/bin/python', '-m', 'pytest', '-q', '-p', 'no:cacheprovider', '-x'], cwd=wt, env=env)
        c1, o1 = sh(['/venv/bin/python', 'demo.py'], cwd=wt, env=env)
        tests_ok = ct == 0 and '101 passed' in ot
        confirmed = c0 == 0 and c1 != 0 and tests_ok
        print(f'{PID}-{n}: demo clean exit={c0}, with change exit={c1}, tests {"pass" if tests_ok else "FAIL: " + ot[-200:]} -> {"CONFIRMED" if confirmed else "REJECTED"}')
        if not confirmed:
            continue
        # run every check on the changed tree (scratch copy of the package)
        results = {}
        envc = dict(os.environ, VERIF_REPO=wt, VERIF_EVIDENCE_DIR=os.path.join(wt, '_ev'), VERIF_REPLAY_DIR=os.path.join(wt, '_replay'))
        from concurrent.futures import ThreadPoolExecutor
        def one(p):
            c, o = sh(['/venv/bin/python', '-m', 'osv', 'check', p], cwd='/verif', env=dict(envc, OSV_SEQUENTIAL='1'))
            first = [l for l in o.splitlines() if ' VIOLATED at ' in l or l.startswith('ANALYSIS-ERROR')]
            return p, c, (first[0][:400] if first else '')
        with ThreadPoolExecutor(9) as ex:
            for p, c, first in ex.map(one, ALL):
                results[p] = {'exit': c, 'first': first}
        det = [p for p in ALL if results[p]['exit'] == 1]
        und = [p for p in ALL if results[p]['exit'] == 2]
        print(f'      detected_by={det} undecided={und} own-property {"DETECTED" if PID in det else "MISSED" if PID not in und else "UNDECIDED"}')
        for p in det + und:
            print(f'        {p}: {results[p]["first"][:230]}')
        notetxt = open(note).read() if os.path.exists(note) else ''
        title = re.sub(r'[^a-z0-9]+', '-', (notetxt.strip().splitlines() or ['change'])[0].lower())[:40].strip('-') or 'change'
        out = f'/verif/seeded/' + (f'W{WAVE}-' if WAVE else '') + f'{PID}-{n}-{title}'
        os.makedirs(out, exist_ok=True)
        shutil.copy(diff, os.path.join(out, 'patch.diff')); shutil.copy(demo, os.path.join(out, 'demo.py'))
        if notetxt: open(os.path.join(out, 'note.md'), 'w').write(notetxt)
        meta = {'property': PID, 'source': 'independent sub-agent given only the property text and a scratch worktree' + (f' (round {WAVE}: consistent across the five models, no caches/state' + ('; mechanisms of earlier rounds excluded' if WAVE in ('3', '4', '5') else '') + ')' if WAVE else ''),
                'needs_to_manifest': notetxt.strip()[:900],
                'confirmed': {'demo_exit_clean_tree': c0, 'demo_exit_with_change': c1, 'existing_tests_with_change': '101 passed',
                              'commands': ['git worktree add <tmp> HEAD', 'python demo.py (clean)', 'git apply patch.diff', 'pytest -q (101 passed)', 'python demo.py (fails)']},
                'check_results': {p: results[p]['exit'] for p in ALL},
                'detected_by': det, 'undecided_by': und, 'missed_by': [PID] if PID not in det else [], 'first_reports': {p: results[p]['first'] for p in det + und}}
        json.dump(meta, open(os.path.join(out, 'meta.json'), 'w'), indent=1)
    finally:
        sh(['git', '-C', '/repo', 'worktree', 'remove', '--force', wt])
