#!/venv/bin/python
"""ingest_refactor.py R1 : verify (tests) and evaluate the behaviour-preserving refactorings of a sub-agent; store under seeded/."""
import json, os, re, shutil, subprocess, sys, tempfile
from concurrent.futures import ThreadPoolExecutor
RID = sys.argv[1]
src = f'/tmp/wt_{RID}/out'
ALL = ['C01','C02','C03','C04','C05','C06','C07','C08','C09','C10','C11','C12','C13','C14','C15','C16','C17','C18','C19','C20']
def sh(cmd, cwd=None, env=None):
    r = subprocess.run(cmd, cwd=cwd, env=env, capture_output=True, text=True)
    return r.returncode, r.stdout + r.stderr
for n in range(1, 7):
    diff = f'{src}/refactor_{n}.diff'
    if not os.path.exists(diff): continue
    wt = tempfile.mkdtemp(prefix=f'ingr_{RID}_{n}_', dir='/tmp'); os.rmdir(wt)
    sh(['git', '-C', '/repo', 'worktree', 'add', '-q', wt, 'HEAD'])
    try:
        c, o = sh(['git', 'apply', '--whitespace=nowarn', diff], cwd=wt)
        if c: print(f'{RID}-{n}: patch does not apply: {o[:200]}'); continue
        ct, ot = sh(['/venv/bin/python', '-m', 'pytest', '-q', '-p', 'no:cacheprovider'], cwd=wt, env=dict(os.environ, PYTHONPATH=wt))
        if not (ct == 0 and '101 passed' in ot): print(f'{RID}-{n}: TESTS FAIL {ot[-200:]}'); continue
        env = dict(os.environ, VERIF_REPO=wt, OSV_SEQUENTIAL='1')
        def one(p):
            c, o = sh(['/venv/bin/python', '-m', 'osv', 'check', p], cwd='/verif', env=dict(env, VERIF_EVIDENCE_DIR=f'{wt}/_ev{p}', VERIF_REPLAY_DIR=f'{wt}/_rp{p}'))
            first = [l for l in o.splitlines() if ' VIOLATED at ' in l or l.startswith('ANALYSIS-ERROR') or 'Traceback' in l]
            return p, c, (first[0][:500] if first else '')
        res = {}
        with ThreadPoolExecutor(9) as ex:
            for p, c, first in ex.map(one, ALL): res[p] = (c, first)
        alarms = [p for p in ALL if res[p][0] == 1]; und = [p for p in ALL if res[p][0] not in (0, 1)]
        print(f'{RID}-{n}: tests pass; silent={len(ALL)-len(alarms)-len(und)} FALSE-ALARMS={alarms} undecided={und}')
        for p in alarms + und: print(f'      {p}: {res[p][1][:300]}')
        note = open(f'{src}/note_{n}.md').read() if os.path.exists(f'{src}/note_{n}.md') else ''
        out = f'/verif/seeded/{RID}-{n}-refactor'
        os.makedirs(out, exist_ok=True)
        shutil.copy(diff, out + '/patch.diff')
        if note: open(out + '/note.md', 'w').write(note)
        json.dump({'property': None, 'kind': 'behaviour-preserving refactoring (all properties hold)', 'source': 'independent sub-agent; verified: 101 tests pass; agent differential check bit-identical vs original',
                   'what': note.strip()[:700], 'check_results': {p: res[p][0] for p in ALL}, 'silent_for': [p for p in ALL if res[p][0] == 0], 'false_alarms': alarms, 'undecided_by': und,
                   'first_reports': {p: res[p][1] for p in alarms + und}}, open(out + '/meta.json', 'w'), indent=1)
    finally:
        sh(['git', '-C', '/repo', 'worktree', 'remove', '--force', wt])
