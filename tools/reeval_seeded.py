#!/venv/bin/python
"""Re-run every check on every seeded change (scratch copies) and refresh meta.json (detected_by / undecided_by / missed_by)."""
import glob, json, os, shutil, subprocess, sys, tempfile
from concurrent.futures import ThreadPoolExecutor
ALL = ['C01','C02','C03','C04','C05','C06','C07','C08','C09','C10','C11','C12','C13','C14','C15','C16','C17','C18','C19','C20']
dirs = sorted(d for d in glob.glob('/verif/seeded/*') if os.path.exists(d + '/patch.diff'))
only = [a for a in sys.argv[1:] if not a.startswith('--props=')]
PROPS = [a[len('--props='):].split(',') for a in sys.argv[1:] if a.startswith('--props=')]
PROPS = PROPS[0] if PROPS else ALL   # --props=C04,C09: re-run only these checks and merge into the recorded results
if only: dirs = [d for d in dirs if any(os.path.basename(d).startswith(o) for o in only)]
scratch = {}
for d in dirs:
    t = tempfile.mkdtemp(prefix='re_', dir='/dev/shm')
    shutil.copytree('/repo/openskill', t + '/openskill')
    r = subprocess.run(['patch', '-p1', '-s', '-i', d + '/patch.diff'], cwd=t, capture_output=True, text=True)
    if r.returncode:
        print('PATCH FAIL', d, r.stdout[:200]); shutil.rmtree(t); continue
    scratch[d] = t
def one(job):
    d, p = job
    t = scratch[d]
    env = dict(os.environ, VERIF_REPO=t, VERIF_EVIDENCE_DIR=f'{t}/ev_{p}', VERIF_REPLAY_DIR=f'{t}/rp_{p}', OSV_SEQUENTIAL='1')
    r = subprocess.run(['/venv/bin/python', '-m', 'osv', 'check', p], cwd='/verif', env=env, capture_output=True, text=True)
    first = [l for l in r.stdout.splitlines() if ' VIOLATED at ' in l or l.startswith('ANALYSIS-ERROR')]
    return d, p, r.returncode, (first[0][:400] if first else '')
def finish(d, resd):
    mp = d + '/meta.json'
    meta = json.load(open(mp)) if os.path.exists(mp) else {'property': os.path.basename(d).split('-')[0]}
    prop = meta.get('property', '')
    prev = meta.get('check_results', {})
    prevfirst = meta.get('first_reports', {})
    for p in ALL:
        if p not in resd:
            resd[p] = (prev.get(p, 0), prevfirst.get(p, ''))
    det = [p for p in ALL if resd[p][0] == 1]; und = [p for p in ALL if resd[p][0] == 2]
    meta['check_results'] = {p: resd[p][0] for p in ALL}
    meta['detected_by'] = det; meta['undecided_by'] = und
    meta['missed_by'] = [prop] if prop in ALL and prop not in det else []
    if str(meta.get('kind', '')).startswith('behaviour-preserving'):
        meta['silent_for'] = [p for p in ALL if resd[p][0] == 0]
        meta['false_alarms'] = det
        meta['detected_by'] = []
    meta['first_reports'] = {p: resd[p][1] for p in det + und}
    if PROPS == ALL:
        sys.path.insert(0, '/verif')
        from osv.rules.game import _checker_digest
        meta['checker_digest'] = _checker_digest()  # the self-test uses a meta as expectation only for this version of the checks
    json.dump(meta, open(mp, 'w'), indent=1)
    print(f"{os.path.basename(d)[:46]:46s} own={prop} {'DET' if prop in det else 'und' if prop in und else 'MISS'}  by={det} und={und}", flush=True)

try:
    # one directory after the other (its checks in parallel), each meta written as soon as its checks are done;
    # the order of the prefixes on the command line is the order of evaluation
    order = [d for o in only for d in scratch if os.path.basename(d).startswith(o)] if only else list(scratch)
    seen = set(); order = [d for d in order if not (d in seen or seen.add(d))]
    with ThreadPoolExecutor(int(os.environ.get("REEVAL_THREADS", "16"))) as ex:
        futs = {d: [ex.submit(one, (d, p)) for p in PROPS] for d in order}
        for d in order:
            resd = {}
            for f in futs[d]:
                _, p, c, first = f.result()
                resd[p] = (c, first)
            finish(d, resd)
            shutil.rmtree(scratch[d], ignore_errors=True)
finally:
    for t in scratch.values(): shutil.rmtree(t, ignore_errors=True)
