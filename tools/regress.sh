#!/bin/bash
# regress.sh [tier]: run all claimed checks on /repo in parallel, print the summary lines
cd /verif
tier=${1:-quick}
for p in C01 C02 C03 C04 C05 C06 C07 C08 C09 C10 C11 C12 C13 C14 C15 C16 C17 C18 C19 C20; do
  ( OSV_SEQUENTIAL=1 /venv/bin/python -m osv check $p --tier $tier > /tmp/regress_$p.out 2>&1; echo "$p exit=$? $(grep -E '^\[C' /tmp/regress_$p.out | tail -1)" ) &
done
wait
