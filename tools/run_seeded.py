#!/venv/bin/python
"""run_seeded.py SEEDED_ID PROP[,PROP]: run checks on one seeded change (scratch copy)."""
import os, shutil, subprocess, sys, tempfile, glob
sid, props = sys.argv[1], sys.argv[2].split(',')
d = glob.glob(f'/verif/seeded/{sid}*')[0]
t = tempfile.mkdtemp(prefix='rs_', dir='/dev/shm')
try:
    shutil.copytree('/repo/openskill', t + '/openskill')
    r = subprocess.run(['patch', '-p1', '-s', '-i', d + '/patch.diff'], cwd=t, capture_output=True, text=True)
    if r.returncode: print('PATCH FAIL', r.stdout, r.stderr); sys.exit(3)
    env = dict(os.environ, VERIF_REPO=t, VERIF_EVIDENCE_DIR=t + '/ev', VERIF_REPLAY_DIR=t + '/rp')
    for p in props:
        r = subprocess.run(['/venv/bin/python', '-m', 'osv', 'check', p], cwd='/verif', env=env, capture_output=True, text=True)
        print(f'--- {os.path.basename(d)} {p} exit={r.returncode}')
        for l in [l for l in r.stdout.splitlines() if ' VIOLATED at ' in l or l.startswith('ANALYSIS-ERROR')][:6]: print('    ', l[:330])
        if r.stderr.strip(): print(r.stderr[-400:])
finally:
    shutil.rmtree(t, ignore_errors=True)
