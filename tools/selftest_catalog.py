#!/venv/bin/python
"""selftest_catalog.py [PROP ...]: the hand-written catalogue variants only (independent expectations), all or those touching the given properties."""
import json, sys
sys.path.insert(0, '/verif')
from osv.selftest import evaluate
from osv.selftest.catalog import VARIANTS
props = [a.upper() for a in sys.argv[1:]] or None
jobs = []
for v in VARIANTS:
    want = sorted(set(v.get('fire', [])) | set(v.get('silent', [])))
    if props is not None:
        want = [p for p in want if p in props]
    if want:
        jobs.append((v, want))
s = evaluate(jobs, workers=int(__import__('os').environ.get('SELFTEST_WORKERS', '8')))
print(json.dumps({k: s[k] for k in ('firing', 'silent', 'failures', 'stale')}, indent=1))
sys.exit(0 if not s['failures'] and not s['stale'] else 2)
