#!/venv/bin/python
"""try_mut.py PROP[,PROP..] FILE OLD NEW [--all] [--files all5]: apply a textual edit to a scratch copy and run checks."""
import os, shutil, subprocess, sys, tempfile
props = sys.argv[1].split(',')
rel, old, new = sys.argv[2], sys.argv[3], sys.argv[4]
allocc = '--all' in sys.argv
all5 = '--all5' in sys.argv
d = tempfile.mkdtemp(prefix='mut_', dir='/dev/shm')
try:
    shutil.copytree('/repo/openskill', os.path.join(d, 'openskill'))
    files = [rel]
    if all5:
        files = ['openskill/models/weng_lin/%s.py' % m for m in ('plackett_luce','bradley_terry_full','bradley_terry_part','thurstone_mosteller_full','thurstone_mosteller_part')]
    for f in files:
        p = os.path.join(d, f)
        s = open(p).read()
        if old not in s:
            print('OLD TEXT NOT FOUND in', f); sys.exit(3)
        s = s.replace(old, new) if allocc else s.replace(old, new, 1)
        open(p, 'w').write(s)
        compile(s, p, 'exec')
    env = dict(os.environ, VERIF_REPO=d, VERIF_EVIDENCE_DIR=os.path.join(d, 'ev'), VERIF_REPLAY_DIR=os.path.join(d, 'replay'))
    for prop in props:
        r = subprocess.run(['/venv/bin/python', '-m', 'osv', 'check', prop], cwd='/verif', env=env, capture_output=True, text=True)
        lines = [l for l in r.stdout.splitlines() if 'VIOLATED' in l or 'ANALYSIS-ERROR' in l or l.startswith('[')]
        print(f'--- {prop} exit={r.returncode}')
        for l in lines[:12]:
            print('   ', l[:300])
        if r.stderr.strip():
            print(r.stderr[-600:])
finally:
    shutil.rmtree(d, ignore_errors=True)
