#!/venv/bin/python
"""try_patch.py PATCH PROP[,PROP..|all] [--keep]: apply a patch to a scratch copy of the package and run checks in parallel."""
import os, shutil, subprocess, sys, tempfile
from concurrent.futures import ThreadPoolExecutor
ALL = ['C01','C02','C03','C04','C05','C06','C07','C08','C09','C10','C11','C12','C13','C14','C15','C16','C17','C18','C19','C20']
patch = os.path.abspath(sys.argv[1])
props = ALL if sys.argv[2] == 'all' else sys.argv[2].split(',')
d = tempfile.mkdtemp(prefix='tp_', dir='/dev/shm')
try:
    shutil.copytree('/repo/openskill', os.path.join(d, 'openskill'))
    r = subprocess.run(['patch', '-p1', '-s', '--no-backup-if-mismatch', '-i', patch], cwd=d, capture_output=True, text=True)
    if r.returncode:
        print('patch failed', r.stdout, r.stderr); sys.exit(3)
    def one(prop):
        env = dict(os.environ, VERIF_REPO=d, VERIF_EVIDENCE_DIR=os.path.join(d, 'ev' + prop), VERIF_REPLAY_DIR=os.path.join(d, 'rp' + prop), OSV_SEQUENTIAL='1' if len(props) > 2 else '')
        r = subprocess.run(['/venv/bin/python', '-m', 'osv', 'check', prop], cwd='/verif', env=env, capture_output=True, text=True)
        lines = [l for l in r.stdout.splitlines() if 'VIOLATED' in l or 'ANALYSIS-ERROR' in l or l.startswith('[')]
        return prop, r.returncode, lines, r.stderr
    with ThreadPoolExecutor(9) as ex:
        for prop, c, lines, err in ex.map(one, props):
            print(f'--- {prop} exit={c}')
            if c:
                for l in lines[:8]:
                    print('   ', l[:420])
                if err.strip():
                    print(err[-800:])
    if '--keep' in sys.argv:
        print('kept', d); d = None
finally:
    if d: shutil.rmtree(d, ignore_errors=True)
