#!/bin/bash
# try_refactors.sh PROP[,PROP]: the checks must stay silent on every behaviour-preserving refactoring under seeded/
cd /verif
for d in seeded/R*-refactor; do
  ( out=$(tools/try_patch.py $d/patch.diff $1 2>&1 | grep -v "exit=0" | head -6 | cut -c1-300); [ -n "$out" ] && echo "== $d" && echo "$out" ) &
  while [ $(jobs -r | wc -l) -ge 6 ]; do sleep 0.3; done
done
wait
echo "refactor sweep done"
